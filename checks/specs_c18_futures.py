"""dmc checks for dispenso::Future: C18 (functor once / same result), C19 (then, when_all, when_any), C20 (timed waits).
Harnesses: harness/c18_futures.cpp (fget, fthen, fwhen, cev_timed, fut_timed); notes: harness/c18_futures.notes.md."""
from specs import reg, McRun, product, MC_ASSUME, need_cover, need_outcomes  # noqa: F401

BIN = 'c18_futures'
FSC = {'free_switch_cost': 1}  # switches at blocking points count as deviations too (many-thread shapes)


class _Runs:
    def __init__(self):
        self.runs, self.seen = [], set()

    def add(self, harness, params, bound, mode='plain', opts=None, budget=40):
        key = (harness, tuple(sorted(params.items())), bound, mode, tuple(sorted((opts or {}).items())))
        if key in self.seen:
            return
        self.seen.add(key)
        self.runs.append(McRun(BIN, harness, params, bound=bound, mode=mode, opts=opts or {}, budget=budget))


# A parameter value "x|y|z" is a data choice explored exhaustively inside one run (cost 0). It is used to fold cheap
# configurations into one process: under load a process costs several seconds before its first execution.
def alts(*xs):
    return '|'.join(str(x) for x in xs)


# ---------------------------------------------------------------------------------------------- C18
# thread programs a.b.c: A (T0, its own handle) . B (copies A's handle, then ...) . C (owns a copy, then ...)
#   g get  w wait  z wait_for(0)  u wait_until(now)  r is_ready  c extra copy  x copy-assign from A's handle
#   d drop (move-assign an empty future)  m move-assign same state + move out  e move-construct away
PROGS = ['g.cw.d', 'zg.zg.m', 'wg.g.e', 'ug.uxg.cd', 'rg.cg.gd', 'g.wz.ge', 'zg.cxw.md', 'g.rg.cm', 'wz.gg.dd', 'ug.zw.xe']
DROPS = ['r.w.d', 'z.g.e']
KINDS = alts('val', 'ref', 'void', 'thr')


def c18_runs(tier):
    R = _Runs()
    q = tier == 'quick'

    def fget(sched, pol, kind, abc, bound, n=None, mode='plain', opts=None, budget=40, **extra):
        p = dict(sched=sched, pol=pol, kind=kind, abc=abc)
        if n is not None:
            p['n'] = n
        p.update(extra)
        R.add('fget', p, bound, mode=mode, opts=opts, budget=budget)

    # (1) manual completer = exactly one invocation of the scheduled OnceFunction: the Future-level races
    #     (status CAS waiter vs runner, notify vs futex wait, reference counts) at the deepest bound.
    #     executions per configuration: bound 1 ~200, bound 2 ~2-4 k, bound 3 ~13 k
    if q:
        fget('man', alts(0, 2), KINDS, alts(*PROGS[:5]), 1, budget=60)  # 40 configurations
        fget('man', 0, 'val', PROGS[1], 2)
        fget('man', alts(0, 2), alts('val', 'thr'), alts(*DROPS), 1, drop=1)
        fget('man', 2, 'val', DROPS[0], 2, drop=1)
    else:
        fget('man', 2, 'val', PROGS[0], 3, budget=200)
        fget('man', alts(0, 2), KINDS, PROGS[1], 2, budget=300)  # 8 configurations
        fget('man', 0, 'val', alts(PROGS[2], PROGS[4], PROGS[6], PROGS[8]), 2, budget=150)
        fget('man', 2, 'val', alts(PROGS[3], PROGS[5], PROGS[7], PROGS[9]), 1, budget=90)
        fget('man', alts(0, 2), KINDS, DROPS[0], 2, drop=1, budget=200)
        fget('man', 0, alts('val', 'thr'), DROPS[1], 2, drop=1, budget=120)
    fget('man', 2, 'val', '-.-.-', 3, drop=1)
    # (2) every real schedulable x every policy; pools are parked first (placed path).
    #     executions per configuration with one worker: bound 1 ~600, bound 2 ~13 k; FSC bound 2 ~1.5 k, bound 3 ~21 k
    ALLPOL = alts(0, 1, 2, 3)
    if q:
        fget('pool', ALLPOL, 'val', PROGS[0], 1, n=1, budget=60)
        fget('ts', alts(1, 2), 'val', PROGS[1], 1, n=1, budget=60)
        fget('cts', alts(1, 2), 'val', PROGS[0], 1, n=1, budget=60)
        fget('pool', 1, alts('ref', 'void', 'thr'), PROGS[1], 1, n=1, opts=FSC)
        fget('pool', 1, 'val', DROPS[0], 1, n=1, drop=1)
        fget('nt', alts(1, 2), alts('val', 'thr'), PROGS[1], 1)
        fget('nt', 1, 'thr', 'r.-.d', 1, drop=1)
        fget('imm', alts(0, 3), alts('val', 'thr'), PROGS[1], 1)
        fget('pool', alts(1, 2), 'val', PROGS[1], 1, n=0)
        fget('ts', 3, 'val', PROGS[1], 1, n=0)
        fget('cts', 0, 'val', PROGS[0], 1, n=0)
        fget('pool', 1, 'val', PROGS[0], 1, n=2, opts=FSC)
        fget('pool', 1, 'val', PROGS[0], 1, n=1, park=0, opts=FSC)
    else:
        fget('pool', 1, 'val', PROGS[0], 2, n=1, budget=200)
        for sched in ('pool', 'ts', 'cts'):
            fget(sched, alts(1, 2), 'val', PROGS[1], 2, n=1, opts=FSC, budget=150)
            fget(sched, ALLPOL, 'val', alts(PROGS[3], PROGS[4]), 1, n=1, budget=150)
            fget(sched, 1, alts('ref', 'void', 'thr'), PROGS[1], 1, n=1, budget=120)
            fget(sched, 1, 'val', alts(*DROPS), 2, n=1, drop=1, opts=FSC, budget=120)
            fget(sched, alts(0, 3), 'val', PROGS[1], 2, n=0)
            fget(sched, 1, 'val', PROGS[0], 2, n=2, opts=FSC, budget=120)
            fget(sched, 2, 'val', PROGS[1], 2 if sched == 'pool' else 1, n=1, park=0, opts=FSC, budget=120)
        fget('nt', alts(1, 2), 'val', PROGS[1], 2, budget=120)
        fget('nt', alts(0, 3), alts('val', 'ref', 'void', 'thr'), PROGS[0], 1, budget=120)
        fget('nt', 1, alts('val', 'thr'), 'r.-.d', 2, drop=1, budget=120)
        fget('imm', ALLPOL, KINDS, PROGS[1], 2, budget=90)
    # TaskSet::wait() returned => the future is ready (nobody called get() before)
    fget(alts('ts', 'cts'), alts(1, 2), 'val', 'r.-.-', 2, n=1, opts=FSC, budget=90)
    # (3) sanitizer legs. Under ASan every execution that used the small-buffer allocator ends with a full leak scan
    #     (the allocator's chunks are still live when the body returns), ~1-2 s each on a loaded machine: bound 0 only.
    fget('man', 2, 'val', PROGS[0], 0 if q else 1, mode='tsan', opts=None if q else FSC, budget=150)
    fget('man', 0, 'val', DROPS[0], 0, mode='asan', drop=1, budget=90)
    if not q:
        fget('man', 0, 'thr', PROGS[1], 1, mode='tsan', opts=FSC, budget=200)
        fget('pool', 1, 'thr', PROGS[1], 1, n=1, mode='tsan', opts=FSC, budget=200)
        fget('nt', 1, 'thr', 'r.-.d', 0, mode='asan', drop=1, budget=120)
        fget('cts', 1, 'val', PROGS[0], 0, n=1, mode='asan', opts=FSC, budget=120)
    if not q:  # deeper extras last: a tier deadline on a loaded machine cuts only these
        fget('man', 0, 'val', PROGS[1], 3, budget=300)
        fget('ts', 1, 'val', PROGS[0], 2, n=1, budget=200)
        fget('cts', 2, 'val', PROGS[1], 2, n=1, budget=200)
        fget('pool', 3, 'thr', PROGS[0], 3, n=1, opts=FSC, budget=300)
        fget('nt', alts(0, 3), 'val', PROGS[0], 2, budget=200)
    return sorted(R.runs, key=lambda r: r.mode == 'plain')  # sanitizer legs first: a tier deadline must not cut them


reg('C18', level='model_checking', runs=c18_runs, quick_budget_s=300, thorough_budget_s=1800,
    technique='stateless model checking of the real Future/FutureImpl/CompletionEventImpl code: all interleavings up to a deviation bound of a creator, two more handle owners and the thread that runs the scheduled function (a pool worker, a new thread, or a completer thread that invokes the scheduled OnceFunction)',
    level_text='Schedulables {ThreadPool(0,1,2), TaskSet, ConcurrentTaskSet (pool of 0,1,2), ImmediateInvoker, NewThreadInvoker, a user schedulable whose stored function a completer thread invokes} x (asyncPolicy, deferredPolicy) in {0,async} x {0,deferred} x result kinds {value, reference, void, throwing} x thread programs: A get/wait/wait_for(0)/wait_until(now)/is_ready on its handle, B copies that handle then waits/gets/copies/copy-assigns, C drops / move-assigns / move-constructs-away its copy, optionally T0 dropping the original early so that any thread may release the last reference. Every interleaving with <=2 deviations for the completer shapes (3 thorough), <=1 for the pool shapes (2 thorough), pools parked before the future is created (one shape still starting up), two-worker shapes with block-point switches counted. Oracle: functor entered exactly once; get()/wait()/ready-reporting timed waits return only after it finished; all get() return one address, the tracked result object is alive, holds the produced value / rethrows the thrown tag; TaskSet::wait() returned => ready; at quiescence the shared state\'s reference count equals the number of live handles and the result is destroyed exactly once (lifetime registry), since the small-buffer allocator hides these blocks from ASan.',
    level_note='SC interleavings; ASan and TSan legs on small shapes. Helper threads start and exit outside the explored window (start gate / serialized exits), pools are parked by a quiet period before the future is handed over.',
    design_ref='DESIGN.md section 4, C18', assumptions=MC_ASSUME,
    rule='one evaluation = one complete execution of one configuration under one schedule; distinct_nontrivial = distinct scheduler states (reads-from history hashes) at which more than one continuation existed',
    guards=[need_cover('ran_on_T0', 'ran_elsewhere', 'pool_parked', 'all_handles_dropped', 'timed_wait_ran_functor'), need_outcomes(40)])


# ---------------------------------------------------------------------------------------------- C19
def c19_runs(tier):
    R = _Runs()
    q = tier == 'quick'

    def fthen(comp, ts, b, c, use, bound, pol=2, mode='plain', opts=None, budget=40, **extra):
        p = dict(comp=comp, ts=ts, b=b, c=c, use=use, pol=pol)
        p.update(extra)
        R.add('fthen', p, bound, mode=mode, opts=opts, budget=budget)

    def fwhen(inp, use, bound, op=alts('all', 'any'), form=alts('it', 'tup'), mode='plain', opts=None, budget=60, **extra):
        p = dict(op=op, form=form, use=use)
        p['in'] = inp
        p.update(extra)
        R.add('fwhen', p, bound, mode=mode, opts=opts, budget=budget)

    BG, BGZ = alts('b', 'g'), alts('b', 'g', 'z')
    # ---- then(): link push racing the completion's drain. Completer thread = one OnceFunction invocation.
    #      executions per configuration: (b=1,c=0) bound 3 ~400, bound 4 ~1 k; (1,1) bound 2 ~3 k, bound 3 ~100 k;
    #      (2,1) bound 2 ~7 k
    deep = 3 if q else 4
    fthen('man', 'imm', 1, 0, BGZ, deep, pol=alts(0, 2), budget=90)
    fthen('man', 'imm', 2, 0, BG, deep - 1, budget=90)
    fthen('man', 'imm', 1, 0, BG, deep - 1, chain=1, budget=90)
    fthen('man', 'imm', 1, 0, 'b', deep - 1, opts={'casfail': 2}, budget=90)  # spurious weak-CAS failures in push / drain
    fthen('man', 'imm', 1, 1, 'b', 2, budget=60)
    fthen('man', 'imm', 1, 1, 'g', 1 if q else 2, akind=alts('val', 'thr'), budget=60)
    fthen('man', 'imm', 1, 1, BG, 1 if q else 2, chain=1, budget=90)
    fthen('man', 'imm', 2, 1, 'b', 1 if q else 2, opts=FSC if q else None, budget=90)
    fthen('man', 'nt', 1, 0, 'b', 2 if q else 3, pol=alts(0, 1, 2, 3), budget=90)
    fthen('man', 'nt', 1, 1, 'g', 1 if q else 2, opts=FSC, budget=90)
    fthen('pre', alts('imm', 'nt'), 2, 0, BG, 1)
    fthen('self', 'imm', 1, 0, 'g', 1, chain=alts(0, 1))
    if not q:
        fthen('man', 'imm', 1, 2, 'g', 2, budget=90)
        fthen('man', 'imm', 1, 1, 'z', 2, pol=alts(0, 2), budget=90)
        fthen('man', 'imm', 1, 1, 'b', 2, opts={'casfail': 1}, budget=90)
    # then() onto pools / task sets: the parked pool completes the antecedent, T0 registers
    POOLS = alts('pool', 'ts', 'cts')
    if q:
        fthen('pool', POOLS, 1, 0, BG, 1, pol=alts(1, 2), n=1, budget=90)
        fthen('pool', POOLS, 2, 0, 'g', 1, pol=2, n=1, opts=FSC, budget=60)
        fthen('pool', 'imm', 1, 0, 'b', 1, n=1, budget=60)
    else:
        fthen('pool', POOLS, 1, 0, 'b', 2, pol=alts(1, 2), n=1, opts=FSC, budget=300)
        fthen('pool', POOLS, 1, 0, 'g', 1, pol=alts(0, 3), n=1, budget=200)
        fthen('pool', POOLS, 1, 0, 'b', 2, pol=1, n=1, budget=300)
        fthen('pool', POOLS, 2, 0, 'g', 1, pol=2, n=1, budget=200)
        fthen('pool', POOLS, 1, 0, 'b', 2, pol=1, n=1, chain=1, opts=FSC, budget=200)
        fthen('pre', POOLS, 1, 0, 'b', 1, pol=alts(1, 2), n=1, budget=60)
        fthen('pool', 'imm', alts(1, 2), 0, BG, 2, n=1, opts=FSC, budget=120)
        fthen('pool', 'imm', 1, 0, 'b', 2, n=1, budget=120)
        fthen('pool', alts('pool', 'cts'), 1, 0, 'b', 2, pol=1, n=2, opts=FSC, budget=200)
    # an external completer thread drains the chain and enqueues the continuation onto a live (parked) pool while a
    # second thread registers (deterministic since the engine pins thread stacks; see notes)
    fthen('man', alts('pool', 'cts'), 1, 1, 'b', 1 if q else 2, pol=alts(1, 2), n=1, opts=FSC, budget=200)
    fthen('man', 'ts', 2, 0, BG, 1 if q else 2, pol=1, n=1, opts=FSC, budget=200)
    # zero-thread pool: the set's bookkeeping without a worker; a completer thread and a second registrar
    fthen('man', 'ts', 1, 0, BG, 2, pol=2, n=0, budget=60)
    fthen('man', alts('cts', 'pool'), 1, 1, 'b', 1 if q else 2, pol=alts(1, 2), n=0, budget=90)

    # ---- when_all / when_any; combinator (all|any) and form (iterator|tuple) are data choices inside each run.
    #      executions per configuration: 2 manual inputs bound 2 ~1 k, bound 3 ~10 k; 3 inputs bound 1 ~150
    wb = 2 if q else 3
    fwhen('-', 'g', 1, set=alts('none', 'ts', 'cts'), n=1)
    fwhen('m', BG, wb)
    fwhen('r', 'g', 1)
    fwhen('mm', BG, 2, ord=alts('01', '10'), budget=120)
    fwhen('mr', 'g', 2, ord='0')
    fwhen('rm', 'b', 2, ord='1')
    fwhen('mm', 'b', 1 if q else 2, ord='10', obs=1)
    fwhen('mm', BG, 1 if q else 2, ord=alts('01', '10'), early=1, budget=120)  # completers start before the combinator is built
    fwhen('mm', 'b', 1, ord='01', split=1)
    fwhen('mmm', BG, 1, ord=alts('201', '012'), budget=90)
    if not q:
        fwhen('i', 'g', 1)
        fwhen('im', 'g', 2, ord='1')
        fwhen('mm', 'g', 3, form='it', ord='10', budget=300)
        fwhen('mm', 'b', 3, form='tup', ord='01', budget=300)
        fwhen('mrm', 'b', 2, ord='20', budget=120)
        fwhen('rmr', 'g', 2, ord='1')
        fwhen('mmm', 'g', 2, form='it', ord='120', budget=300)
        fwhen('mmm', 'b', 1, ord='120', split=1, opts=FSC, budget=200)
    # task-set variants: set.wait() returned => result ready
    SETS = alts('ts', 'cts')
    fwhen('mm', 'w', 1 if q else 2, set=SETS, n=0, ord='10', budget=120)
    fwhen('m', 'w', 1, set=SETS, n=1, ord='0', budget=120)
    fwhen('mm', 'g', 1 if q else 2, set=SETS, n=0, ord='01', budget=120)
    if not q:
        fwhen('mm', 'w', 2, set=SETS, n=1, ord='01', opts=FSC, budget=300)
        fwhen('pm', 'w', 1, set=SETS, n=1, ord='1', budget=300)
        fwhen('mmm', 'w', 1, set=SETS, n=0, ord='201', budget=120)
        fwhen('pp', 'g', 1, set=SETS, n=2, opts=FSC, budget=200)
    fwhen('mm', 'g', 2, op='any', form='it', ord='01', opts={'casfail': 1})
    fwhen('mm', 'b', 2, op='all', form='tup', ord='10', opts={'casfail': 1})
    # ---- sanitizer legs (see C18 for why the ASan legs are bound 0)
    fthen('man', 'imm', 1, 1, 'b', 0 if q else 1, mode='tsan', opts=None if q else FSC, budget=150)
    fwhen('mm', 'b', 0 if q else 1, op='any', form='it', mode='tsan', ord='10', obs=1, opts=None if q else FSC, budget=150)
    fthen('man', 'imm', 1, 0, 'b', 0, mode='asan', budget=120)
    if not q:
        fthen('man', 'imm', 1, 1, 'g', 1, mode='tsan', chain=1, budget=200)
        fthen('pool', 'ts', 1, 0, 'g', 1, pol=1, n=1, mode='tsan', opts=FSC, budget=200)
        fwhen('mm', 'g', 1, op='all', form='tup', mode='tsan', ord='01', early=1, budget=200)
        fwhen('mm', 'w', 0, op='any', form='it', mode='asan', set='cts', n=0, ord='10', budget=120)
        fwhen('mrm', 'g', 0, op='all', form='tup', mode='asan', ord='20', budget=120)
    if not q:  # deeper extras last
        fwhen('mm', 'b', 3, form='it', ord='10', early=1, budget=300)
        fwhen('mm', 'g', 3, form='tup', ord='01', budget=300)
        fthen('man', 'imm', 2, 1, 'g', 2, budget=200)
        fthen('pool', POOLS, 1, 0, 'g', 2, pol=alts(0, 3), n=1, opts=FSC, budget=300)
    if not q:
        fthen('man', 'imm', 1, 1, 'b', 3, budget=400)  # ~130 k executions: last, so that a tier deadline cuts only this one
    return sorted(R.runs, key=lambda r: r.mode == 'plain')  # sanitizer legs first: a tier deadline must not cut them


reg('C19', level='model_checking', runs=c19_runs, quick_budget_s=300, thorough_budget_s=1800,
    technique='stateless model checking of the real then-chain (addToThenChainOrExecute / tryExecuteThenChain) and of when_all / when_any (iterator and tuple forms, plain and task-set variants) against completer threads and pool workers',
    level_text='then(): 1-2 continuations registered by T0 and 0-2 by a second thread, optionally a continuation of a continuation, while a completer thread (one invocation of the antecedent\'s scheduled function) or a parked ThreadPool(1) worker completes the antecedent, or it is complete before / completed by nobody (pulled through get()); then-schedulables {ImmediateInvoker, NewThreadInvoker, ThreadPool, TaskSet, ConcurrentTaskSet (pools of 0 and 1; 2 thorough)} x policies; consumers that never touch the returned future (so only the chain can deliver: a lost link is a deadlock verdict), get() it, or wait_for(0) it; spurious weak-CAS failures on two shapes; <=3 deviations on the smallest shape, 2 otherwise (4/3 thorough), 1 (2) with a pool. when_all / when_any: 0-3 inputs that are ready, completed by completer threads in every tested order (one thread or one per input), or pool futures; consumers get() (inline path), block until delivered by the then-callbacks, or taskSet.wait() first; an observer thread polling is_ready(); <=2 deviations (3 thorough) for <=2 inputs, 1 (2) for 3. Oracle: every continuation entered exactly once, its antecedent is_ready() and its functor finished, values/exceptions propagate; the antecedent ran once; chain empty and then-future reference counts exact at quiescence; when_all ready => size and order of inputs preserved, every input ready; when_any index < n names a ready input, SIZE_MAX iff no inputs; TaskSet/ConcurrentTaskSet::wait() returned => result is_ready().',
    level_note='SC interleavings. The result-state reference count of when_any is observed, not asserted, here (cover result_refcount_off; see notes: strict=1).',
    design_ref='DESIGN.md section 4, C19', assumptions=MC_ASSUME,
    rule='one evaluation = one complete execution of one configuration under one schedule; distinct_nontrivial = distinct scheduler states with more than one continuation',
    guards=[need_cover('then_inline_late_ready', 'then_inline_ready_before', 'cont_not_in_then', 'then_get', 'pulled_through', 'taskset_wait',
                       'taskset_wait_first', 'delivered_by_callbacks', 'observer_saw_ready'), need_outcomes(60)])


# ---------------------------------------------------------------------------------------------- C20
TIMED = {'timeout_race': 1, 'spurious': 2}
TIMED_FSC = dict(TIMED, free_switch_cost=1)


def c20_runs(tier):
    R = _Runs()
    q = tier == 'quick'

    def cev(notif, bound, mode='plain', opts=None, budget=60, **extra):
        p = dict(api='all', d='all', notif=notif)
        p.update(extra)
        R.add('cev_timed', p, bound, mode=mode, opts=TIMED if opts is None else opts, budget=budget)

    def fut(sched, pol, when, bound, mode='plain', opts=None, budget=60, **extra):
        p = dict(sched=sched, pol=pol, when=when, api='all', d='all')
        p.update(extra)
        R.add('fut_timed', p, bound, mode=mode, opts=TIMED if opts is None else opts, budget=budget)

    # CompletionEvent: api in {waitFor(ns), waitFor(double s), waitUntil(steady), waitUntil(system)} and
    # d in {-5 ns, 0, 300 ns, 999999 ns, 1 ms, 2 s} are data choices inside each run (24 combinations)
    eb = 3 if q else 5
    NOTIF = alts('before', 'during', 'never')
    cev(NOTIF, eb, budget=120)
    cev(NOTIF, eb, opts={'timeout_race': 0, 'spurious': 0})  # timeouts only when nothing else can run
    # a second waiter with its own duration
    cev(alts('during', 'never'), 1 if q else 2, d1=alts(300, 1000000) if q else alts(-5, 0, 300, 1000000, 2000000000), budget=200)
    # Future: completer-thread shapes cover the functor states exactly (api x d = 12 combinations per configuration)
    WHEN = alts('ready', 'during', 'blocked', 'never')
    fut('man', alts(0, 2), WHEN, 2, budget=200)
    fut('man', alts(1, 3), alts('during', 'never') if q else WHEN, 2, budget=200)
    fut('man', alts(0, 2), 'during' if q else alts('during', 'blocked', 'never'), 1 if q else 2, w2=1, budget=200)
    if not q:
        fut('man', alts(0, 2), 'during', 3, budget=300)
    fut('nt', alts(0, 2) if q else alts(0, 1, 2, 3), 'during', 1 if q else 2, budget=120)
    fut('imm', alts(0, 2), 'during', 1)
    fut('pool', alts(0, 1, 2, 3), 'during', 1, n=1, d=alts(0, 1000000) if q else alts(-5, 0, 300, 1000000, 2000000000), budget=200)
    fut('pool', alts(1, 2), 'during', 1, n=0, d=300)
    if not q:
        fut('pool', alts(1, 2), 'during', 2, n=1, d=1000000, api='for', opts=TIMED_FSC, budget=200)
        fut('pool', 1, 'during', 1, n=1, d=300, api='for', w2=1, budget=120)
        fut('pool', 1, 'during', 1, n=2, d=1000000, api='for', opts=TIMED_FSC, budget=200)
        fut('pool', 2, 'during', 2, n=1, d=1000000, api='until', park=0, opts=TIMED_FSC, budget=200)
    # futures made by dispenso::async(schedulable, policy, f): one policy bitmask (kept as separate runs)
    for pol in (0, 1, 2, 3):
        fut('pool', pol, 'during', 1, n=1, d=1000000, api='for', ctor='fn')
    for pol in (1, 2):
        fut('nt', pol, 'during', 1, d=1000000, api='for', ctor='fn')
    # a bystander thread (by=2 scheduling points): gives the explorer steps at which a spurious return / early timer can
    # be placed while the event is never notified / the functor is blocked or unstarted for the whole wait
    cev('never', eb, by=2, budget=120)
    fut('man', alts(0, 2), alts('blocked', 'never'), 2, by=2, budget=200)
    # sanitizer legs (explicit api / duration: the folded choices would multiply the slow executions by 12-24)
    cev('during', 1 if q else 2, mode='tsan', api='for', d=1000000, d1=300, opts={'timeout_race': 1, 'spurious': 1}, budget=200)
    cev('during', 2, mode='asan', api='until', d=300, opts={'timeout_race': 1, 'spurious': 1}, budget=90)
    fut('man', 0, 'during', 0 if q else 1, mode='tsan', api='for', d=1000000, w2=1, opts=TIMED if q else TIMED_FSC, budget=150)
    fut('man', 2, 'never', 0, mode='asan', api='for', d=0, budget=120)
    if not q:
        fut('man', 0, 'blocked', 1, mode='tsan', api='until', d=300, by=2, budget=200)
        fut('pool', 1, 'during', 1, mode='tsan', n=1, d=300, api='for', opts=TIMED_FSC, budget=200)
        fut('nt', 0, 'during', 0, mode='asan', api='for', d=300, budget=120)
    if not q:  # deeper extras last
        fut('man', alts(1, 3), 'during', 3, budget=300)
        fut('nt', alts(0, 2), 'during', 3, budget=300)
        fut('pool', alts(0, 3), 'during', 2, n=1, d=alts(0, 300), api='until', opts=TIMED_FSC, budget=300)
        cev(alts('during', 'never'), 2, d1=alts(0, 300), by=1, budget=300)
    return sorted(R.runs, key=lambda r: r.mode == 'plain')  # sanitizer legs first: a tier deadline must not cut them


reg('C20', level='model_checking', runs=c20_runs, quick_budget_s=300, thorough_budget_s=1800,
    technique='stateless model checking with virtual time of CompletionEvent::waitFor/waitUntil and Future::wait_for/wait_until: all interleavings up to a deviation bound, timer expiry racing the notification, spurious futex returns',
    level_text='CompletionEvent: {waitFor(ns), waitFor(double seconds), waitUntil(steady_clock), waitUntil(system_clock)} x durations {-5 ns, 0, 300 ns, 999999 ns, 1 ms, 2 s} (data choices inside each run) x notifier {before, during, never} x 1-2 waiters, with and without the deviations "timer fires although others can run" and "spurious futex return" (<=2), <=3 deviations (4 thorough). Future: wait_for / wait_until x the same durations x (async, deferred) policies x functor state {finished before the call, running for the whole call, completing during the call, not started until the call returned} with a completer thread, plus NewThreadInvoker, ImmediateInvoker, ThreadPool(0,1 parked; 2 and starting-up thorough), 1-2 waiters, futures built by the constructor and by dispenso::async(schedulable, policy, f). Oracle: true / future_status::ready => completed() / is_ready() and the functor finished at return; false / timeout => virtual clock advanced by at least the requested duration since the call (waitUntil: clock at or past the time point); a timed wait ran a not-yet-started functor only if the future was created with std::launch::deferred.',
    level_note='virtual clock: a clock read advances it by 10 us, an expiring timed futex wait jumps it to its deadline, mc::now_ns() reads without advancing; the kernel timer is modelled as never early (deadline = now + timeout + 1 ns).',
    design_ref='DESIGN.md section 4, C20', assumptions=MC_ASSUME,
    rule='one evaluation = one complete execution of one configuration (including its chosen duration and API form) under one schedule; distinct_nontrivial = distinct scheduler states with more than one continuation',
    guards=[need_cover('ev_true', 'ev_false', 'ev_false_but_completed_now', 'fut_ready', 'fut_timeout', 'fut_timeout_but_ready_now',
                       'timed_wait_ran_functor', 'made_by_async_fn'), need_outcomes(100)])

