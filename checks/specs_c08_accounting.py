"""C08: the pool's pending-work counter is back to zero at every quiescent point (harness c08_accounting.cpp)."""
from specs import reg, McRun, product, MC_ASSUME, need_cover, need_outcomes  # noqa: F401

# History alphabet (see the harness header): submissions s q b<k> (pool), t u r<k> R<k> (TaskSet), c d C<k>
# (ConcurrentTaskSet kHeavy: steal rings), l L<k> (ConcurrentTaskSet kLightweight); w wait; z<n> resize(n); p/e poll/wake mode;
# k explicit quiescent-point check (not counted as a step). X = any submission (14), Y = any of s q b2, Z = any of z0 z1 z2:
# wildcards are resolved inside the run by mc::choose, so one run explores the whole family of histories with their schedules.


def c08_runs(tier):
    runs, seen = [], set()

    def add(n, h, t1='-', oracle='counter', mult=1, smult=4, bound=0, mode='plain', budget=60):
        key = (n, h, t1, oracle, mult, smult, bound, mode)
        if key in seen:
            return
        seen.add(key)
        runs.append(McRun('c08_accounting', 'acct', dict(n=n, h=h, t1=t1, oracle=oracle, mult=mult, smult=smult), bound=bound, mode=mode, budget=budget))

    quick = tier == 'quick'
    # ---- every history of the family under the default schedules (bound 0: T0 runs on into resize() while the woken
    # workers have not run yet, so the work still sits in rings / steal rings / central queue when resize drains them)
    for n in (1, 2):
        add(n, 'kXZ')                            # workers parked, submit by any path, then any resize
        add(n, 'XZ')                             # same with the workers still starting up
    add(2, 'kXZ', oracle='probe')                # public effect only: schedule() on the idle pool must queue
    # sanitizer legs (early, so that a tier cut short by machine load still has them)
    add(1, 'kr1z2', bound=1, mode='tsan', budget=150)
    add(1, 'kdz2', bound=1, mode='asan', budget=150)
    add(1, 'XZX', budget=120)                    # submit again after the resize (the final check catches drift of both)
    add(2, 'Xz1X', budget=120)
    add(1, 'XwZ', budget=120)                    # waited before the resize: nothing left to drain
    add(0, 'XZ', budget=120)                     # starting from a pool without threads
    add(0, 'z1XZ', budget=120)
    add(1, 'pXZ')                                # poll mode (setSignalingWake itself is resize(0)+resize(n))
    add(1, 'XpX')
    add(1, 'pXeX')
    add(2, 'kXZ', mult=32)                       # default multiplier
    add(1, 'XZ', smult=1)
    # ---- one deviation on named histories (ring fast path, steal ring, central queue; grow, shrink, to zero)
    for n, h in ((1, 'kr1Z'), (1, 'kdZ'), (1, 'b2Z'), (2, 'kr2z1'), (2, 'kC2z1'), (2, 'L2z0z1')):
        add(n, h, bound=1, budget=120)
    add(1, 'XZ', bound=1, budget=120)            # the whole n=1 family with one deviation (~14k executions)
    if not quick:
        # ---- two deviations on the smallest named histories (first: they are what thorough adds)
        for n, h in ((1, 'kr1z2'), (1, 'kdz2'), (1, 'qz0z1'), (1, 'b2z2'), (1, 'r1w'), (2, 'kr2z1')):
            add(n, h, bound=2, budget=300)
        # ---- the families with one deviation
        add(1, 'kXZ', bound=1, budget=300)
        add(2, 'kXz1', bound=1, budget=400)
        add(2, 'Xz1', bound=1, budget=400)
        # a second thread submitting while T0 resizes (to a size >= 1: a submission racing resize(0) can strand its task,
        # which is another property's business)
        add(1, 'z2', t1='Y', bound=1, budget=200)
        add(2, 'z1k', t1='Y', bound=1, budget=300)
        add(1, 'qz2', t1='q', bound=1, budget=200)
        add(1, 'kr1z2', t1='Y', bound=1, budget=300)
        # ---- longer families under the default schedules
        for n, h in ((1, 'kXZkXZ'), (1, 'XwZX'), (0, 'XZX'), (2, 'XpX'), (1, 'XZXZ'), (2, 'XZX'), (2, 'kXz1X')):
            add(n, h, budget=300)
        add(1, 'XZXZ', oracle='probe', budget=300)
        # the largest ones last (cut first when the machine is loaded)
        add(2, 'kXZ', bound=1, budget=400)
        add(2, 'XZ', bound=1, budget=400)
        add(1, 'kXZkXZ', bound=1, budget=400)
    return runs


reg('C08', level='model_checking', runs=c08_runs, quick_budget_s=400, thorough_budget_s=1200,
    technique='stateless model checking of the real ThreadPool with TaskSet / ConcurrentTaskSet: histories of submissions, waits and resizes explored jointly with the schedules of the workers; the private counter workRemaining_ is read at model-level quiescent points (-fno-access-control, no hook)',
    level_text='Histories of <= 4 steps (plus check points) over {ThreadPool::schedule, schedule(FQ), scheduleBulk; TaskSet::schedule, schedule(FQ), scheduleBulk (ring fast path count*4 >= N && count <= N && numRings >= count, and the standard path), scheduleBulk(FQ); ConcurrentTaskSet kHeavy schedule / schedule(FQ) / scheduleBulk (steal-ring placement) and kLightweight schedule / scheduleBulk; wait; resize(0|1|2); setSignalingWake(false|true)} on pools that start with 0, 1 or 2 threads, poolLoadMultiplier 1 (and 32). Families "any submission, any resize", "parked workers, any submission, any resize", two rounds, submission after the resize, poll mode: every member of the family, quick under the default schedules (bound 0: the submitting thread runs on into resize() while the woken workers have not run yet, so the work still sits in the rings / steal rings / central queue when resize drains them) and named histories with <= 1 deviation; thorough: families with <= 1 deviation, named histories with <= 2, and a second thread submitting during the resize. Quiescent point = every functor finished, no call in progress, every worker parked (totalSleeping == numThreads: a worker flushes its batched decrements before it registers as sleeping) or no workers. Oracle: workRemaining_ == 0 and poolLoadFactor_ == numThreads*multiplier, i.e. the state of a fresh pool; in probe mode only the public effect: schedule() on the idle pool must queue, not run inline.',
    level_note='SC interleavings. In poll mode workers never register as sleeping, so quiescence is only established after a final resize(0). TSan and ASan legs on two named histories.',
    design_ref='DESIGN.md section 4, C08', assumptions=MC_ASSUME,
    rule='one evaluation = one complete execution of one concrete history under one schedule; distinct_nontrivial = distinct scheduler states with more than one continuation',
    guards=[need_cover('bulk_ring_fast_path', 'bulk_standard_path', 'resize_ran_ring_candidate', 'resize_ran_placed_task', 'resize_ran_queue_task', 'wait_ran_task',
                       'worker_ran_task', 'ran_inline', 'resize_to_0', 'resize_up', 'resize_down', 'quiescent_check_n0', 'quiescent_check_n1', 'quiescent_check_n2plus',
                       'set_poll_mode', 'final_resize0_in_poll_mode', 'probe_was_queued'),
            need_outcomes(10)])
