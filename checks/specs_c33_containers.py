"""dmc checks for the containers and allocators: C33 ConcurrentVector, C37 ConcurrentObjectArena,
C41 SmallBufferAllocator, C42 PoolAllocator, C26 TimedTask."""
import itertools
from specs import reg, McRun, product, MC_ASSUME, need_cover, need_outcomes  # noqa: F401

RULE = ('one evaluation = one complete execution of one harness configuration under one schedule (or one value of '
        'every mc::choose); distinct_nontrivial = distinct scheduler states with more than one continuation')


# ---------------------------------------------------------------------------------------------- C41
def c41_runs(tier):
    runs = []
    B = 'c41_allocators'

    def sba(params, bound, mode='plain', opts=None, budget=60):
        runs.append(McRun(B, 'sba', params, bound=bound, mode=mode, opts=opts or {}, budget=budget))
    q = tier == 'quick'
    # two threads, block size 256 (smallest slabs: ~220 scheduling points per slab creation)
    two = [('a', 'a'), ('ab', 'ba'), ('ad', 'ad')]
    if not q:
        progs = ['a', 'ad', 'ab', 'ba', 'aa', 'b', 'ada']
        two = [(x, y) for i, x in enumerate(progs) for y in progs[i:] if 'a' in x + y]
    for x, y in two:
        sba(dict(sz=256, t0=x, t1=y), 2, budget=50)
    # hand-over to another thread, thread exit, helper threads
    for p in ([dict(t0='axa', t1='Ra'), dict(t0='sa', h='ad')] if q else
              [dict(t0='axa', t1='Ra'), dict(t0='axR', t1='axR'), dict(t0='aax', t1='Rab'), dict(t0='sa', h='ad'), dict(t0='sab', h='a'),
               dict(t0='sja', h='a'), dict(t0='s', h='ad', t1='ab')]):
        sba(dict(p, sz=256), 2, budget=60)
    # warm allocator: recycle to the central store, concurrent dequeues, empty-but-existing store, partial dequeue
    sba(dict(sz=256, warm=2, t0='d', t1='a'), 2)
    sba(dict(sz=256, warm=2, t0='db', t1='ab'), 1 if q else 2)
    sba(dict(sz=256, warm=1, t0='b', t1='a', t2='a'), 1 if q else 2, budget=90)
    sba(dict(sz=256, warm=3, t1='a', t2='a'), 1 if q else 2, budget=120)
    sba(dict(sz=256, t0='a', t1='a', t2='b'), 1 if q else 2, budget=120)
    sba(dict(sz=256, t0='sjAAAA', h='a'), 1)
    # a second thread exhausting the first thread's slab (3 x kIdeal blocks from the central store, then a slab of its
    # own) while the first is still inside / just out of grabFromCentralStore. The window after the slab lock is
    # released contains no atomic operation, so what the first thread does there cannot be interleaved by the
    # scheduler: the TSan run is what sees state shared across that unlock
    sba(dict(sz=256, t0='a', t1='AAAA'), 1, budget=60)
    sba(dict(sz=256, t0='a', t1='AAAA'), 0, mode='tsan', budget=90)
    if not q:
        sba(dict(sz=256, t0='sAAA', h='a', t1='a'), 1, budget=240)
    # other block sizes (bigger slabs = longer executions) and the alignedMalloc path
    sba(dict(sz=64, t0='ab', t1='ba'), 1 if q else 2, budget=90)
    sba(dict(sz=64, warm=2, t0='d', t1='a'), 1)
    sba(dict(sz=8, t0='ad', t1='ab'), 1, budget=60)
    if not q:
        sba(dict(sz=8, warm=1, t0='b', t1='a', t2='a'), 1, budget=90)
    sba(dict(sz=512, t0='axa', t1='Rab', t2='ad'), 2)
    # spurious compare_exchange_weak failures (bytesAllocated's lock loop, moodycamel's free lists)
    sba(dict(sz=256, t0='a', t1='b'), 2 if q else 3, opts=dict(casfail=2))
    sba(dict(sz=256, t0='ab', t1='ba'), 2, opts=dict(casfail=2), budget=90)
    if not q:
        # deeper: three deviations on the central shapes, two deviations at block size 64
        sba(dict(sz=256, t0='a', t1='a'), 3, budget=400)
        sba(dict(sz=256, t0='ab', t1='ba'), 3, budget=400)
        sba(dict(sz=256, warm=2, t0='d', t1='a'), 3, budget=400)
        sba(dict(sz=64, t0='a', t1='a'), 2, budget=200)
        sba(dict(sz=64, warm=2, t0='d', t1='a'), 2, budget=200)
        sba(dict(sz=64, t0='sa', h='ad'), 2, budget=200)
    # sanitizer legs: a race on allocator metadata voids the guarantee (tsan); heap misuse (asan)
    sba(dict(sz=256, t0='a', t1='b'), 1 if q else 2, mode='tsan', budget=120)
    sba(dict(sz=256, t0='axa', t1='Ra'), 1, mode='asan', budget=90)
    if not q:
        sba(dict(sz=256, t0='ab', t1='ba'), 1, mode='tsan', budget=120)
        sba(dict(sz=256, warm=2, t0='d', t1='a'), 1, mode='tsan', budget=120)
        sba(dict(sz=256, t0='axa', t1='Ra'), 1, mode='tsan', budget=120)
        sba(dict(sz=256, t0='sa', h='ad'), 1, mode='tsan', budget=120)
        sba(dict(sz=256, t0='a', t1='a'), 1, mode='asan', budget=120)
        sba(dict(sz=256, t0='sa', h='ad'), 1, mode='asan', budget=120)
    runs.sort(key=lambda r: r.mode == 'plain')  # sanitizer legs first: they must not fall off the end of the tier budget
    return runs


reg('C41', level='model_checking', runs=c41_runs, quick_budget_s=400, thorough_budget_s=1800,
    technique='stateless model checking of the real SmallBufferAllocator (thread-local caches, moodycamel central store, backing-store spin lock) with an ownership map; TSan and ASan legs; spurious weak-CAS failures',
    level_text='1-3 threads (plus helper threads that exit) running histories of <=3 operations over {alloc, dealloc own, hand a block to another thread which deallocates it, approxBytesAllocatedSmallBuffer, thread exit returning the cache}, block sizes 8/64/256 (512 = alignedMalloc path), on a cold allocator and on three warmed states (central store filled; cache one short of the recycle threshold; central store drained); every interleaving with <=2 deviations for two threads at size 256 (<=1 for three threads and the bigger sizes in quick; thorough adds <=3 deviations on three central shapes and <=2 at size 64). Oracle: address map of live blocks (no block handed out twice, no overlap, alignment = size, block inside a backing-store slab, contents of a live block untouched), occupancy of the backing-store critical section (a slab creation and an approxBytes call never overlap), lock word free at quiescence, and a final drain by T0 of every block the allocator owns (a block sitting twice in the caches or the central store is handed out twice there); the same shapes under ThreadSanitizer must be race free.',
    level_note='SC interleavings; weak-CAS spurious failures explored (casfail=2); TSan legs on five shapes, ASan legs on three. The allocator globals are rebuilt before every execution (cold start), warm paths are reached by a single-threaded prefix inside the body.',
    design_ref='DESIGN.md section 4, C41', assumptions=MC_ASSUME, rule=RULE,
    guards=[need_cover('sba_create_slab', 'sba_central_dequeue', 'sba_tl_pop', 'sba_foreign_dealloc', 'sba_recycle', 'sba_exit_with_cache',
                       'sba_bytes', 'sba_helper', 'sba_partial_dequeue', 'sba_drain_exact'), need_outcomes(10)])


# ---------------------------------------------------------------------------------------------- C42
POOL_PROGS = ['a', 'aa', 'ad', 'aaa', 'aad', 'aaD', 'ada']
POOL_SIZES = [(8, 8), (8, 16), (16, 64)]


def c42_runs(tier):
    runs = []
    B = 'c41_allocators'
    q = tier == 'quick'
    allp = '|'.join(POOL_PROGS)
    for cs, ss in POOL_SIZES:
        # every ordered pair of programs on two threads; every multiset of three programs (quick: of four of them)
        runs.append(McRun(B, 'pool', dict(cs=cs, ss=ss, t0=allp, t1=allp), bound=3 if q else 4, budget=60 if q else 200))
        sub = 'a|ad|aad|ada'
        runs.append(McRun(B, 'pool', dict(cs=cs, ss=ss, t0=sub, t1=sub, t2=sub, sym=1), bound=2 if q else 3, budget=60 if q else 400))
        if not q:
            runs.append(McRun(B, 'pool', dict(cs=cs, ss=ss, t0=allp, t1=allp, t2=allp, sym=1), bound=2, budget=300))
        runs.append(McRun(B, 'nolock', dict(cs=cs, ss=ss, depth=5 if q else 6), bound=0, budget=60))
    # allocator cleared while quiescent (retired slabs, no free chunk), then concurrent allocations: slab re-use
    for cs, ss, warm in ((8, 8, 2), (8, 16, 3)):
        runs.append(McRun(B, 'pool', dict(cs=cs, ss=ss, warm=warm, t0='a|aa|ad', t1='a|aa|ad'), bound=2 if q else 3, budget=60 if q else 200))
    runs.append(McRun(B, 'pool', dict(cs=8, ss=8, warm=2, t0='aa', t1='aa'), bound=1, mode='tsan', budget=60 if q else 200))
    tp = 'a|ad|ada' if q else allp
    runs.append(McRun(B, 'pool', dict(cs=8, ss=16, t0=tp, t1=tp), bound=2, mode='tsan', budget=90 if q else 300))
    runs.append(McRun(B, 'pool', dict(cs=16, ss=64, t0='aaD', t1='ada', t2='ad'), bound=1, mode='tsan', budget=60 if q else 300))
    runs.append(McRun(B, 'pool', dict(cs=8, ss=16, t0='aaD', t1='ada', t2='ad'), bound=1, mode='asan', budget=60 if q else 300))
    runs.append(McRun(B, 'nolock', dict(cs=8, ss=16, depth=4), bound=0, mode='asan', budget=120 if q else 400))
    runs.append(McRun(B, 'nolock', dict(cs=16, ss=64, depth=4), bound=0, mode='asan', budget=120 if q else 400))
    runs.sort(key=lambda r: r.mode == 'plain')
    return runs


reg('C42', level='model_checking', runs=c42_runs, quick_budget_s=400, thorough_budget_s=1500,
    technique='stateless model checking of the real PoolAllocator (spin lock, slab carving) with logging allocFunc/deallocFunc and a chunk ownership map; exhaustive serial histories of NoLockPoolAllocator via mc::choose',
    level_text='PoolAllocator: 2 threads x every pair and 3 threads x every multiset of the seven non-trivial programs (quick: of four of them) of <=3 operations over {alloc, dealloc newest, dealloc oldest}, chunk/slab sizes (8,8), (8,16), (16,64), every interleaving with <=3 deviations for two threads (4 thorough) and <=2 for three (3 for the four-program subset in thorough). NoLockPoolAllocator: every serial history of depth 5 (6 thorough) over {alloc, dealloc newest, dealloc oldest, clear, alloc one slab worth}. Oracle: every chunk lies in a live slab obtained from allocFunc, is disjoint from every live chunk and is not handed out again before its dealloc; contents of live chunks untouched; after clear() allocFunc is not called until every recycled slab has been reused; totalChunkCapacity(); deallocFunc exactly once per slab and only during destruction.',
    level_note='SC interleavings. The critical sections of PoolAllocator contain no scheduling point, so a locking error does not change any outcome of the serialised plain runs; it is the TSan legs (every pair of programs at (8,16) with <=2 deviations, quick: of three programs; one three-thread shape) that would report it. ASan legs on one concurrent shape and the serial enumeration at depth 4.',
    design_ref='DESIGN.md section 4, C42', assumptions=MC_ASSUME, rule=RULE,
    guards=[need_cover('pool_alloc', 'pool_dealloc', 'pool_allocfunc', 'nolock_alloc', 'nolock_dealloc', 'nolock_clear', 'nolock_clear_multi_slab'), need_outcomes(1000)])


# ---------------------------------------------------------------------------------------------- C37
def c37_runs(tier):
    runs = []
    B = 'c33_containers'
    q = tier == 'quick'
    ks = '1|2|3|5'
    # sequential: copies of arenas with every buffer count 1..6 (nb=0), plain and ASan+LSan
    for bs in (1, 2, 4):
        runs.append(McRun(B, 'arena_copy', dict(bs=bs, nb=0), bound=0, budget=30))
        if bs < 4 or not q:
            runs.append(McRun(B, 'arena_copy', dict(bs=bs, nb=0), bound=0, mode='asan', budget=60 if q else 200))
    # concurrent growth: T0 and T1 one grow_by each, every multiset of amounts, every buffer size
    for bs in (1, 2, 4):
        rd = 1 if (bs == 2 or not q) else 0
        runs.append(McRun(B, 'arena', dict(bs=bs, pre=1, g0=ks, g1=ks, sym=1, rd=rd, rr=1 if q else 2), bound=2, budget=90 if q else 600))
    # several calls per thread, three growers
    more = [dict(bs=1, pre=1, g0='1.2', g1='2.1'), dict(bs=2, pre=1, g0='3', g1='2.1', rd=1, rr=1), dict(bs=1, pre=0, g0='2', g1='3', g2='1')]
    if not q:
        more += [dict(bs=2, pre=1, g0='1', g1='2', g2='3'), dict(bs=4, pre=1, g0='5', g1='3', g2='2'), dict(bs=1, pre=2, g0='1.1.1', g1='1.1.1', rd=1),
                 dict(bs=4, pre=3, g0='5.1', g1='1.5', rd=1)]
        for bs in (1, 2, 4):
            runs.append(McRun(B, 'arena', dict(bs=bs, pre=1, g0=ks, g1=ks, sym=1), bound=3, budget=300))
    for p in more:
        runs.append(McRun(B, 'arena', p, bound=2, budget=90 if q else 200))
    runs.append(McRun(B, 'arena', dict(bs=1, pre=1, g0=2, g1=3, rd=1), bound=1 if q else 2, mode='tsan', budget=90 if q else 400))
    runs.append(McRun(B, 'arena', dict(bs=2, pre=1, g0=3, g1=2, rd=1), bound=1 if q else 2, mode='asan', budget=90 if q else 400))
    runs.sort(key=lambda r: r.mode == 'plain')
    return runs


reg('C37', level='model_checking', runs=c37_runs, quick_budget_s=400, thorough_budget_s=1800,
    technique='stateless model checking of the real ConcurrentObjectArena::grow_by (CAS loop, locked buffer allocation, pointer-array regrowth) plus exhaustive sequential enumeration of copies/moves/swaps under ASan',
    level_text='Concurrent: buffer sizes 1/2/4 (1 is the minimum), T0 and T1 each grow_by(k), every pair k in {1,2,3,5}, a third thread holding &arena[0] and re-reading the elements that existed before; multi-call and three-grower shapes; every interleaving with <=2 deviations (3 for the two-grower pairs in thorough). Oracle: every returned range inside [0,size()), ranges pairwise disjoint and tiling [0,size()), every element of a returned range default-constructed when grow_by returns and still owned by its grower at the end (no re-construction), &arena[0] and the old elements unchanged, capacity()/numBuffers()/getBufferSize() consistent. Sequential: arenas grown to 1..6 internal buffers (every fill of the last buffer, one-shot and element-wise), then copy-construct, copy-assign, move-construct, move-assign, swap; size, geometry and every element compared, the result grown across a buffer boundary, deep-copy independence; plain and ASan+LSan builds.',
    level_note='SC interleavings; TSan leg on one concurrent shape, ASan legs on one concurrent shape and on the whole sequential enumeration.',
    design_ref='DESIGN.md section 4, C37', assumptions=MC_ASSUME, rule=RULE,
    guards=[need_cover('arena_new_buffer', 'arena_pointer_array_regrown', 'arena_range_spans_buffers', 'arena_reader', 'arena_copy_construct',
                       'arena_copy_assign', 'arena_move_construct', 'arena_move_assign', 'arena_swap'), need_outcomes(100)])


# ---------------------------------------------------------------------------------------------- C33
CV_OPS = ['p', 'P', 'e', 'g3', 'G2', 'n3', 'i3', 'l', 'm4', 'M3', 'g5']


def c33_runs(tier):
    runs = []
    B = 'c33_containers'
    q = tier == 'quick'
    allops = '|'.join(CV_OPS)
    inits = '0|1|2|3|4|5'  # where the growth starts relative to the bucket boundaries (first bucket: 1 or 2 elements)

    def cv(params, bound=2, mode='plain', budget=90):
        runs.append(McRun(B, 'cvec', params, bound=bound, mode=mode, budget=budget))
    for cap in (2, 4):
        for strat in (0, 1, 2):
            base = dict(cap=cap, strat=strat)
            if q:
                # every operation against grow_by(3, v) and emplace_back, from every initial size
                cv(dict(base, init=inits, t0='g3|e', t1=allops))
                if cap == 2:
                    cv(dict(base, init='1|3', t0='g3|e', t1='e|g3|n3|m4', rd=1, rr=1))
                cv(dict(base, init='1|2|4', inl=0, fast=0, t0='g3|G2|p', t1='e|n3|P|m4'))
                cv(dict(base, init='0|3', t0='g3', t1='e', t2='p'))
                cv(dict(base, init=inits, t0='g3|e', t1='eg2|pe|g2e'))
            else:
                cv(dict(base, init=inits, t0=allops, t1=allops, sym=1), budget=400)
                cv(dict(base, init='1|2|3', t0='g3|e|G2|m4', t1=allops, rd=1, rr=2), budget=400)
                for inl, fast in ((0, 1), (1, 0), (0, 0)):
                    cv(dict(base, init=inits, inl=inl, fast=fast, t0='g3|G2|p', t1=allops), budget=300)
                for p3 in (dict(t0='g3', t1='e', t2='p'), dict(t0='g2', t1='n3', t2='G2'), dict(t0='e', t1='e', t2='e'), dict(t0='g5', t1='m4', t2='P'),
                           dict(t0='i3', t1='l', t2='M3')):
                    cv(dict(base, init='0|1|3|4', **p3), budget=200)
                cv(dict(base, init=inits, t0='g3e|eg2|pp', t1='eg2|pe|g2e|n2p'), budget=300)
                cv(dict(base, init='1|2', t0='eee', t1='g2g2', rd=1, rr=1), budget=200)
    sb = 1 if q else 2
    cv(dict(cap=2, strat=2, init='1|4', t0='g3', t1='e', rd=1, rr=1), bound=sb, mode='tsan', budget=120)
    cv(dict(cap=2, strat=0, init=1, t0='G2', t1='n3', rd=1, rr=1), bound=sb, mode='tsan', budget=120)
    cv(dict(cap=2, strat=2, init='3|4', t0='g3', t1='e|p'), bound=sb, mode='asan', budget=120)
    cv(dict(cap=4, strat=1, init='1|2', t0='i3', t1='m4', inl=0, rd=1, rr=1), bound=sb, mode='asan', budget=120)
    if q:
        cv(dict(cap=2, strat=2, init='1|2|4', inl=0, fast=1, t0='g3|G2|p', t1='e|n3|P|m4'))
        cv(dict(cap=2, strat=2, init='1|2|4', inl=1, fast=0, t0='g3|G2|p', t1='e|n3|P|m4'))
    runs.sort(key=lambda r: r.mode == 'plain')
    return runs


reg('C33', level='model_checking', runs=c33_runs, quick_budget_s=400, thorough_budget_s=1800,
    technique='stateless model checking of the real ConcurrentVector growth paths (index reservation, single and range bucket allocation, the unsynchronised buffer-assignment step, the bare spin on a missing bucket) with a lifetime-tracked element type',
    level_text='kDefaultCapacity 2 and 4 (first bucket 1 or 2 elements, so every growth amount used crosses bucket boundaries) x all three realloc strategies x inline/heap buffer pointers x fast/compact iterators; 2 growers x pairs of {push_back(const&), push_back(&&), emplace_back, grow_by(k,value), grow_by(k), grow_by_generator, grow_by(range), grow_by(init-list), grow_to_at_least(n,value), grow_to_at_least(n)} (quick: every operation against grow_by(3,v) and emplace_back; thorough: all pairs), each from every initial size 0..5 so that the growth starts at every offset relative to the bucket boundaries, 3 growers, two-operation programs; a reader thread holding a reference, a pointer and an iterator to element 0 and re-reading every element published before the growers started; every interleaving with <=2 deviations. Oracle: returned iterators/ranges inside [0,size()), pairwise disjoint, every element of a returned range holds its writer\'s value at return and at the end, final size == total growth, every slot constructed exactly once and destroyed exactly once (lifetime registry), element 0 at the same address with the same value.',
    level_note='SC interleavings; TSan legs on two shapes, ASan legs on two shapes.',
    design_ref='DESIGN.md section 4, C33', assumptions=MC_ASSUME, rule=RULE,
    guards=[need_cover('cvec_bucket_allocated', 'cvec_two_buckets_allocated', 'cvec_range_spans_buckets', 'cvec_range_spans_3_buckets', 'cvec_reader',
                       'cvec_grow_to_at_least'), need_outcomes(100)])


# ---------------------------------------------------------------------------------------------- C26
def c26_runs(tier):
    runs = []
    B = 'c26_timed_task'
    q = tier == 'quick'

    def tt(params, bound, mode='plain', opts=None, budget=90):
        runs.append(McRun(B, 'timed', params, bound=bound, mode=mode, opts=opts or {}, budget=budget))
    acts, whens = '0|1|2', ('0|2|4' if q else '0|1|2|3|4')
    # ThreadPool(1): the call runs on the pool thread, three threads plus T0
    for n, per, steady, delay in [(1, 0, 0, 300), (2, 0, 0, 0), (2, 1000, 0, 300)] + ([] if q else [(1, 0, 0, 0), (3, 1000, 1, 300), (3, 0, 0, 0)]):
        fa = '|'.join(str(j) for j in range(0, min(n, 1 if q else 2) + 1))
        tt(dict(pool=1, n=n, per=per, steady=steady, delay=delay, fa=fa, act=acts, when='0|3|4' if q else '0|2|3|4'), 1, budget=120 if q else 300)
    # kImmediateInvoker: the call runs on the kicking thread (T0 for a task that is already due, else the scheduler thread)
    shapes = [(1, 0, 0, 300), (2, 0, 0, 0), (2, 1000, 0, 300), (3, 1000, 1, 300)]
    if not q:
        shapes += [(1, 0, 0, 0), (2, 0, 0, 300), (3, 0, 0, 0), (3, 1000, 0, 0)]
    for n, per, steady, delay in shapes:
        fa = '|'.join(str(j) for j in range(0, n + 1))
        tt(dict(pool=0, n=n, per=per, steady=steady, delay=delay, fa=fa, act=acts, when=whens), 2 if q else 3, budget=90 if q else 300)
    if not q:
        tt(dict(pool=1, n=1, per=0, delay=300, fa=0, act='1|2', when='0|4'), 2, budget=600)
        tt(dict(pool=1, n=2, per=0, delay=0, fa='0|1', act='0|2', when='0|3'), 2, budget=600)
    # timers racing the other threads (a timed wait may expire while others are still runnable)
    tt(dict(pool=0, n=2, per=1000, steady=0, delay=300, fa='0|1', act=acts, when='0|1|4'), 2, opts=dict(timeout_race=1), budget=120)
    # sanitizer legs: ASan sees a cleared function object being used, TSan the unsynchronised access to it
    sb = 70 if q else 200
    tt(dict(pool=1, n=1, per=0, delay=300, fa=0, act='2' if q else '1|2', when=4), 1, mode='asan', budget=sb)
    tt(dict(pool=1, n=2, per=0, delay=0, fa='1' if q else '0|1', act=0), 1, mode='asan', budget=sb)
    tt(dict(pool=0, n=2, per=0, delay=0, fa='0|1', act=acts, when=0), 1, mode='tsan', budget=sb)
    if not q:
        tt(dict(pool=0, n=2, per=0, delay=0, fa='0|1', act=acts, when='0|4'), 1, mode='asan', budget=sb)
        tt(dict(pool=1, n=1, per=0, delay=300, fa=0, act='1|2', when=4), 1, mode='tsan', budget=sb)
    runs.sort(key=lambda r: r.mode == 'plain')
    return runs


reg('C26', level='model_checking', runs=c26_runs, quick_budget_s=400, thorough_budget_s=1800,
    technique='stateless model checking of the real TimedTaskScheduler / TimedTask (private scheduler instance, its timing thread, kickOffTask, the wrapped call, cancel, ~TimedTask) under a virtual clock; ASan and TSan legs',
    level_text='Backing schedulable kImmediateInvoker or ThreadPool(1); timesToRun 1..3, period 0 or 1 ms, normal/steady, first run already due (kicked off by schedule() on the caller) or 300 us ahead (kicked off by the scheduler thread); the function returns false at call j for every j; T0 either waits for all calls, or cancel()s, or destroys the task, at five positions (quick: three for the immediate invoker) (right after schedule(); after sleeping to the scheduled time; while the first call is inside the function; after it returned; when a kick-off has just taken its run from timesToRun); every interleaving with <=2 deviations for the immediate invoker (3 thorough) and <=1 for the pool (2 on two shapes in thorough), one shape with timers racing. Oracle inside the function: calls <= timesToRun, none after a false, none earlier than the first scheduled virtual time (10 us kick-off tolerance of the library allowed), none starts after cancel() returned, none starts or is in progress after ~TimedTask returned, function object alive for the whole call (canary; ASan in the asan legs); every expected call happens when nobody cancels (otherwise deadlock verdict).',
    level_note='SC interleavings, virtual monotone clock (dispenso::getTime() reads it). A window made only of plain code (between the wrapped call\'s cancelled check and the call of the function) contains no scheduling point and is not split; the TSan legs cover unsynchronised accesses there.',
    design_ref='DESIGN.md section 4, C26', assumptions=MC_ASSUME, rule=RULE,
    guards=[need_cover('timed_all_calls', 'timed_cancel', 'timed_cancel_before_first_call', 'timed_cancel_during_call', 'timed_destroy_during_call',
                       'timed_destroy_before_first_call', 'timed_repeated', 'timed_returned_false', 'timed_act_at_kickoff'), need_outcomes(50)])
