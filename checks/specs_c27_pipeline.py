"""C27 / C28 / C29: dispenso::pipeline under the dmc explorer (harness/c27_pipeline.cpp, harness `pipeline`)."""
from specs import reg, McRun, product, MC_ASSUME, need_cover, need_outcomes  # noqa: F401

BIN, H = 'c27_pipeline', 'pipeline'
LIM = ['p', '2', 'u']  # plain function (serial), stage(f,2), stage(f,kStageNoLimit)


def _run(runs, seen, prop, n, st, items, bound, mode='plain', budget=60, **kw):
    params = dict(prop=prop, n=n, st=st, items=items)
    params.update(kw)
    key = (tuple(sorted(params.items())), bound, mode)
    if key in seen:
        return
    seen.add(key)
    runs.append(McRun(BIN, H, params, bound=bound, mode=mode, budget=budget))


# transform kinds for a middle stage: value-returning, OpResult that drops nothing, OpResult that drops item 1
MID = [-1, 0, 2]


def _shape_runs(prop, tier):
    """the matrix shared by C27 and C28 (C28 = same runs with the in-flight oracle).
    '*' / -2 are wildcards that the harness enumerates exhaustively inside one run (mc::choose)."""
    runs, heavy, san, seen = [], [], [], set()  # order: cheap plain runs, two workers at bound >= 1, sanitizer legs
    q = tier == 'quick'

    def add(n, st, items, bound, **k):
        dest = san if k.get('mode', 'plain') != 'plain' else (heavy if (n >= 2 and bound >= 1) else runs)
        _run(dest, seen, prop, n, st, items, bound, **k)
    # ---- one stage (pool 0 explicitly per limit: a violation ends a run, wildcards would hide the other limits)
    for st in ('p', '2', 'u'):
        add(0, st, 2, 0)
    add(1, '*', 3, 1 if q else 2)
    add(2, '*', 3, 0 if q else 1, budget=150)
    # ---- two stages: every pair of limits
    add(0, '**', 3, 0)
    add(2, '**', 3, 0)
    if q or prop == 28:  # one worker never reaches two concurrent invocations of a stage (see notes): C28 spends its time on pool 2
        add(1, '**', 3, 1, budget=120)
    else:
        for g in LIM:
            for s in LIM:
                add(1, g + s, 3, 2, budget=120)
    two_n2 = ['pp'] if q else ['pp', '22', 'uu', 'up', '2p', 'p2', 'u2']
    if prop == 28 and q:
        two_n2 = ['up']  # two generator instances feeding a serial sink: reaches both covers, and is the shape that exposes an off-by-one slot count
    for st in two_n2:
        add(2, st, 2 if (q and st == 'pp') else 3, 1, budget=200)
    # ---- three stages: every limit triple x every transform kind
    add(0, '***', 3, 0, f1=-2)
    add(2, '***', 3, 0, f1=-2, budget=150)
    if q:
        for st in ('ppp', 'p2p', '2u2', 'upu'):
            add(1, st, 3, 1, f1=-2)
    else:
        for g in LIM:
            add(1, g + '**', 3, 1, f1=-2, budget=240)
        for st, kind in (('p2p', 2), ('2u2', -1), ('u2p', 0)):
            add(2, st, 3, 1, f1=kind, budget=300)
        if prop != 28:
            for st, kind in (('ppp', -1), ('p2p', 2), ('2p2', 0), ('u2u', 2)):
                add(1, st, 2, 2, f1=kind, budget=200)
    # an unlimited stage feeding a limited one on two workers: the limited stage's wait() must cover items that are
    # still inside the unlimited stage (its drain loop is the safety net for a missed hand-off at the tail)
    for st in ('uup', 'pup', '2up'):
        add(2, st, 2, 1, budget=120)
    # a limit-2 stage between serial stages, four items, two workers: the slot hand-over between a completing item's
    # callback and the scheduling thread (a slot returned twice shows up as a second concurrent sink invocation)
    add(2, 'p2p', 4, 1, budget=150)
    if not q:
        for st in ('uup', 'pup'):
            add(2, st, 2, 2, budget=400)
        add(2, 'uu2', 3, 1, budget=300)
    # ---- four and five stages: bound 0 over every limit tuple, bound 1 on one worker for fixed shapes
    add(0, '****', 3, 0, f1=-2, f2=-2)
    add(0, '*****', 3, 0, f1=-1 if q else -2, f2=2 if q else -2, f3=0 if q else -2, budget=150)
    shapes = (('p2u1', dict(f1=-1, f2=2)), ('2u22', dict(f1=1, f2=-1)), ('u12u', dict(f1=0, f2=4)),
              ('p2u2p', dict(f1=-1, f2=2, f3=-1)), ('2u1u2', dict(f1=1, f2=-1, f3=0)), ('u22p2', dict(f1=-1, f2=-1, f3=4)))
    for st, f in shapes:
        if not q or st in ('p2u1', '2u1u2'):
            add(2, st, 3, 0, **f)
        if not q or st == 'p2u1':
            add(1, st, 3 if not q else 2, 1, budget=120, **f)
    if not q:
        add(2, '****', 3, 0, f1=-1, f2=2, budget=200)
    # ---- sanitizer legs on small shapes
    add(1, 'p2p', 2, 1 if not q else 0, mode='tsan', f1=2, budget=120)
    add(1, 'pp', 2, 1, mode='tsan', budget=90)
    add(2, 'u2', 2, 0, mode='tsan')
    add(1, '2u', 2, 1, mode='asan', budget=90)
    add(2, 'p2p', 3, 0, mode='asan', f1=0)
    # C28 is decided by the two-worker runs (a single worker never gets two invocations of one stage in flight): they go first
    return (heavy + runs + san) if prop == 28 else (runs + heavy + san)


def c27_runs(tier):
    return _shape_runs(27, tier)


def c28_runs(tier):
    return _shape_runs(28, tier)


_RULE = ('one evaluation = one complete execution (ThreadPool construction, pipeline(), ThreadPool destruction) of one configuration under one '
         'schedule; distinct_nontrivial = distinct scheduler states (reads-from history hashes) at which more than one continuation existed')
_NOTE = ('the harness calls the public dispenso::pipeline(); stage functors contain one scheduling point each; std::optional stages are not '
         'covered (the harness is built as C++14, OpResult is the filtering type); 4-5 stage pipelines use dispenso::stage() for every stage; '
         'a per-execution hook puts glibc\'s cached thread stacks into a canonical order because moodycamel\'s implicit-producer hash depends '
         'on thread_local addresses (see harness/c27_pipeline.notes.md)')

reg('C27', level='model_checking', runs=c27_runs, quick_budget_s=300, thorough_budget_s=1500,
    technique='stateless model checking of the real pipeline()/LimitGatedScheduler/ConcurrentTaskSet/ThreadPool code with tagged, '
              'heap-owning items: all interleavings up to a deviation bound, per-(item,stage) exactly-once and provenance oracle',
    level_text='pipelines of 1-5 stages over stage limits {plain function, stage(f,2), stage(f,kStageNoLimit)}: all 3 single stages, all 9 limit '
               'pairs, all 27 limit triples x {value transform, OpResult transform dropping nothing, dropping item 1}, all 81 / 243 limit tuples of 4 / 5 '
               'stages (x all transform kinds in thorough), 2-3 items, pools of 0, 1 and 2 threads. Pool 0: the single schedule of every shape. Pool 2: '
               'every shape of 1-3 stages and eight 4-5 stage shapes at bound 0 (all free switches); <=1 deviation on pp (quick) / on the single stages, '
               'seven 2-stage and three 3-stage shapes (thorough). Pool 1: every interleaving with <=1 deviation of all 1-2 stage shapes, four (quick) / '
               'all 27 (thorough) 3-stage limit triples x 3 transform kinds and one (six) 4-5 stage shapes; thorough: <=2 deviations on all single '
               'stages, all 9 two-stage shapes and four 3-stage shapes. Oracle: when pipeline() returns every (item, stage) counter is exactly 1, or 0 '
               'downstream of the stage that filtered the item; each stage sees exactly the path/payload its predecessor produced for that item; no '
               'stage functor is running or starts after the return; a single-stage pipeline has been driven until it returned false; pipeline() '
               'returns at all (watchdog thread on the virtual clock / step count).',
    level_note=_NOTE, design_ref='DESIGN.md section 4, C27', assumptions=MC_ASSUME, rule=_RULE,
    guards=[need_cover('filtered', 'stage_ran_inline_nested'), need_outcomes(20)])

reg('C28', level='model_checking', runs=c28_runs, quick_budget_s=300, thorough_budget_s=1500,
    technique='stateless model checking of the real pipeline() code, every stage functor bracketing a scheduling point with a per-stage '
              'in-flight counter',
    level_text='the C27 shapes (1-5 stages, limits {plain function = 1, 2, unlimited}, pools 0-2, 2-3 items) with the two-worker runs first, '
               'because one worker plus the caller never put two invocations of one stage in flight within 2 deviations: pool 2 with <=1 deviation on '
               'unlimited-generator/serial-sink (quick) / on the single stages, seven 2-stage and three 3-stage shapes (thorough), pool 2 at bound 0 and '
               'pool 1 at bound 1 on everything else as in C27. Oracle: at no moment does a stage have more concurrent invocations than its limit (1 for '
               'a plain function), checked at every entry; the generator (and the single stage) likewise, and the number of generator instances (empty '
               'results delivered) never exceeds its limit. Vacuity guard: some stage really reached two concurrent invocations and two generator '
               'instances really ran.',
    level_note=_NOTE, design_ref='DESIGN.md section 4, C28', assumptions=MC_ASSUME, rule=_RULE,
    guards=[need_cover('stage_concurrency_2', 'generator_instances_2'), need_outcomes(20)])


# ---------------------------------------------------------------------------------------------- C29
def c29_runs(tier):
    runs, heavy, san, seen = [], [], [], set()  # order: cheap plain runs, two workers at bound >= 1, sanitizer legs
    q = tier == 'quick'

    def add(n, st, items, bound, **k):
        # the second pipeline needs the harness' per-execution arena (plain build) to be replay-deterministic, and it
        # doubles the length of an execution: not used with two workers at bound >= 1
        k.setdefault('again', 1 if (k.get('mode', 'plain') == 'plain' and not (n >= 2 and bound >= 1)) else 0)
        dest = san if k.get('mode', 'plain') != 'plain' else (heavy if (n >= 2 and bound >= 1) else runs)
        _run(dest, seen, 29, n, st, items, bound, **k)
    # thr = throwing stage, at = item it throws at (0/1/2 = first/middle/last of 3); -2 = enumerated inside the run
    # ---- two stages: every thrower position x item x limit pair (quick: 5 pairs).  One worker: bound 1;
    # pools 0 and 2: bound 0 (all free switches)
    pairs = ['pp', '2p', 'u2', 'uu', 'p2'] if q else [a + b for a in LIM for b in LIM]
    for st in pairs:
        for thr in (0, 1):
            add(1, st, 3, 1, thr=thr, at=-2, budget=90)
        add(2, st, 3, 0, thr=-2, at=-2, budget=90)
        add(0, st, 3, 0, thr=-2, at=-2)
    # ---- three stages: thrower in each position
    trip = [('ppp', -1), ('p2p', 0), ('u2u', -1), ('2u2', 2)] if q else [('ppp', -1), ('p2p', 0), ('u2u', -1), ('2u2', 2), ('2pu', -1), ('up2', 0), ('22p', 2), ('pu2', -1)]
    for st, kind in trip:
        add(2, st, 3, 0, thr=-2, at=-2, f1=kind, budget=90)
        if q:
            add(1, st, 3, 0, thr=-2, at=-2, f1=kind)
        else:
            for thr in (0, 1, 2):
                add(1, st, 3, 1, thr=thr, at=-2, f1=kind, budget=120)
    if q:
        for st, kind, thr, at in (('ppp', -1, 1, 1), ('p2p', 0, 2, 1), ('u2u', -1, 1, 0)):
            add(1, st, 3, 1, thr=thr, at=at, f1=kind)
    # ---- three stages, one worker, two deviations: the caller inside a limited stage's wait() (holding a dequeued item,
    # spinning for a slot) while a downstream stage throws, and an upstream task enqueueing after that wait() gave up
    add(1, 'ppp', 3, 2, thr=2, at=0, again=0, budget=120)
    if not q:
        for st, kind in (('ppp', -1), ('p2p', 0)):
            for thr in (1, 2):
                add(1, st, 3, 2, thr=thr, at=-2, f1=kind, again=0, budget=400)
    # ---- concurrent throwers: the stage throws for every item from `at` on / two different stages throw
    for st in (['22'] if q else ['22', 'u2', 'uu', '2u']):
        add(1, st, 3, 1, thr=1, at=0, all=1)
        add(2, st, 3, 0, thr=1, at=0, all=1)
    add(1, 'p2p', 3, 1, thr=1, at=1, thr2=2, at2=0, f1=-1)
    if not q:
        add(1, '2u2', 3, 1, thr=0, at=2, thr2=2, at2=0, f1=0)
    # ---- two workers, bound 1 (throwing pipeline only)
    for st, thr, at in ([('pp', 1, 1)] if q else [('pp', 1, 1), ('u2', 0, 2), ('2p', 1, 0), ('uu', 1, 2), ('p2', 0, 1), ('22', 1, 1)]):
        add(2, st, 3, 1, thr=thr, at=at, budget=150 if q else 240)
    if not q:
        add(2, 'p2p', 3, 1, thr=1, at=1, f1=0, budget=300)
        add(2, '22', 3, 1, thr=1, at=0, all=1, budget=300)
        for st, thr in (('pp', 1), ('u2', 0), ('2p', 1)):
            add(1, st, 3, 2, thr=thr, at=1, again=0, budget=240)
        # single stage and 4 stages
        for n in (1, 2):
            add(n, '2', 3, 1, thr=0, at=1, budget=150)
            add(n, 'p2u1', 3, 0, thr=-2, at=-2, f1=-1, f2=0)
        add(1, 'p2u1', 3, 1, thr=3, at=1, f1=-1, f2=0)
    else:
        add(1, 'p2u1', 3, 0, thr=-2, at=1, f1=-1, f2=0)
    add(1, 'p', 3, 1, thr=0, at=1)
    # ---- LeakSanitizer / ASan+UBSan legs (heap-owning payloads), TSan leg
    add(1, 'pp', 3, 0 if q else 1, mode='asan', thr=0, at=2, budget=120)
    add(1, 'u2', 3, 1, mode='asan', thr=1, at=1, budget=120)
    add(2, 'p2p', 3, 0, mode='asan', thr=1, at=1, f1=0, budget=90)
    if not q:
        add(1, '2p', 3, 1, mode='asan', thr=1, at=1, budget=120)
        add(1, 'uu', 3, 1, mode='asan', thr=1, at=0, budget=120)
        add(2, 'ppp', 3, 0, mode='asan', thr=2, at=0, f1=-1, budget=90)
    add(1, 'p2', 3, 1, mode='tsan', thr=1, at=1, budget=120)
    add(2, 'uu', 3, 0, mode='tsan', thr=0, at=1, budget=90)
    return runs + heavy + san


reg('C29', level='model_checking', runs=c29_runs, quick_budget_s=300, thorough_budget_s=1500,
    technique='stateless model checking of the real pipeline() code with throwing stage functors and heap-owning, lifetime-tracked items; '
              'the engine\'s live-object registry (all modes) and LeakSanitizer (asan mode) are evaluated at the end of every execution',
    level_text='throwing stage in each position (generator, transform, sink) x throw at the first / middle / last of 3 items x stage limits '
               '{plain function, 2, unlimited} (5 (quick) / all 9 limit pairs for 2 stages; 4 / 8 three-stage shapes with value and OpResult '
               'transforms; one 4-stage and the single-stage shape) x pools of 0, 1 and 2 threads, plus a stage that throws for every item (concurrent '
               'throwers) and two different throwing stages. Pool 1: every interleaving with <=1 deviation of all 2-stage configurations (quick: 3-stage '
               'shapes at bound 0 plus three at bound 1; thorough: all 3-stage configurations at bound 1 and <=2 deviations on three 2-stage ones; <=2 deviations on ppp with a throwing sink (quick) / on ppp and p2p with a throwing transform or sink at every item (thorough)); '
               'pool 2: bound 0 (all free switches) everywhere and <=1 deviation on one (quick) / nine (thorough) configurations; pool 0: the single '
               'schedule. Oracle: pipeline() throws iff a stage threw, the tag is one that was thrown and was not thrown after another exception was '
               'already captured (= the first captured one); no (item, stage) counter exceeds 1; at most one first-stage call per generator instance '
               'starts after the exception is visible in the task set; no stage still running when pipeline() throws; pipeline() terminates (watchdog); '
               'every item payload destroyed (live-object registry in every run, LeakSanitizer in the asan legs); a second, non-throwing 3-stage '
               'pipeline on the same pool then satisfies the full C27 oracle (plain runs except pool 2 at bound 1) and ~ThreadPool terminates.',
    level_note=_NOTE + '; "first captured" cannot be observed directly from outside, the oracle excludes every tag whose throw statement executed '
               'while the task set already showed a captured exception',
    design_ref='DESIGN.md section 4, C29', assumptions=MC_ASSUME, rule=_RULE,
    guards=[need_cover('throw', 'second_pipeline'), need_outcomes(20)])
